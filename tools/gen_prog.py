"""Grammar-directed generator of ChaiScript programs inside the subset the Coq evaluator models.

Typed (int / bool / string / vec / fn), mostly error-free, with weights that seek interactions:
shadowing across capture, continue-in-switch-in-for, guards with side effects, try/finally with
return, for-loops that match the optimizer's pattern and near misses, constant conditions,
dead statements, unused call results, references and copies.
All randomness comes from the Random instance passed in."""
import random

INT, BOOL, STR, VEC = "int", "bool", "str", "vec"


class Gen:
    def __init__(self, rnd, max_depth=4, error_rate=0.05, features=None, full_parens=False):
        self.r = rnd
        self.full_parens = full_parens
        self.uses_trace = False
        self.max_depth = max_depth
        self.error_rate = error_rate
        self.f = features or {}
        self.counter = 0
        self.funcs = []      # (name, nparams, returns type)
        self.stats = {}

    def note(self, k):
        self.stats[k] = self.stats.get(k, 0) + 1

    def fresh(self, p="v"):
        self.counter += 1
        return "%s%d" % (p, self.counter)

    # ------------------------------------------------------------ expressions
    def lit(self, t):
        r = self.r
        if t == INT:
            return str(r.choice([0, 1, 2, 3, 5, 7, 10]))
        if t == BOOL:
            return r.choice(["true", "false"])
        if t == STR:
            return '"%s"' % r.choice(["", "a", "b", "xy", "z1"])
        if t == VEC:
            return "[" + ", ".join(self.lit(INT) for _ in range(r.randint(0, 3))) + "]"

    def const_expr(self, t, d):
        """an expression over literals only: what Constant_Fold / Partial_Fold / If see"""
        r = self.r
        if t == INT:
            if d >= 2 or r.random() < 0.3:
                return r.choice(["0", "1", "2", "3", "7", "10", "5", "4", "100", "int(3)", "int(7)", "2147483647" if r.random() < 0.1 else "6"])
            k = r.random()
            if k < 0.6:
                op = r.choice(["+", "-", "*", "/", "%", "<<", ">>", "&", "|", "^"])
                return "(%s %s %s)" % (self.const_expr(INT, d + 1), op, str(r.randint(0, 4)) if op in ("<<", ">>") and r.random() < 0.9 else self.const_expr(INT, d + 1))
            if k < 0.8:
                return "(%s%s)" % (r.choice(["-", "+", "~"]), self.const_expr(INT, d + 1))
            return "(%s ? %s : %s)" % (self.const_expr(BOOL, d + 1), self.const_expr(INT, d + 1), self.const_expr(INT, d + 1))
        if d >= 2 or r.random() < 0.3:
            return r.choice(["true", "false"])
        k = r.random()
        if k < 0.4:
            return "(%s %s %s)" % (self.const_expr(INT, d + 1), r.choice(["<", "<=", ">", ">=", "==", "!="]), self.const_expr(INT, d + 1))
        if k < 0.8:
            return "(%s %s %s)" % (self.const_expr(BOOL, d + 1), r.choice(["&&", "||"]), self.const_expr(BOOL, d + 1))
        return "(!%s)" % self.const_expr(BOOL, d + 1)

    # ---- expressions written with the fewest parentheses C precedence and associativity allow (feature "flat");
    #      with full_parens the same tree is written fully parenthesised: the two texts must mean the same
    PREC = {"*": 10, "/": 10, "%": 10, "+": 9, "-": 9, "<<": 8, ">>": 8, "<": 7, "<=": 7, ">": 7, ">=": 7, "==": 6, "!=": 6,
            "&": 5, "^": 4, "|": 3, "&&": 2, "||": 1}

    def tree(self, env, t, d):
        r = self.r
        if d >= 3 or r.random() < 0.2 + 0.15 * d:
            k = r.random()
            vs = self.vars_of(env, t)
            if k < 0.35:
                self.tagn = getattr(self, "tagn", 0) + 1
                self.uses_trace = True
                self.note("flat:side-effect-operand")
                if t == INT:
                    return ("atom", 'N("t%d", %s)' % (self.tagn, r.choice(vs) if vs and r.random() < 0.5 else self.lit(INT)))
                return ("atom", '%s("t%d")' % (r.choice("TF"), self.tagn))
            if vs and k < 0.65:
                return ("atom", r.choice(vs))
            return ("atom", self.lit(t))
        if r.random() < 0.2:
            # identity / absorbing literal next to a side-effecting operand: what an algebraic simplification would touch
            self.tagn = getattr(self, "tagn", 0) + 1
            self.uses_trace = True
            self.note("flat:algebraic-identity")
            if t == INT:
                op, lit = r.choice([("*", "0"), ("*", "1"), ("+", "0"), ("-", "0"), ("&", "0"), ("|", "0"), ("/", "1"), ("%", "1"), ("<<", "0"), ("^", "0")])
                se = ("atom", 'N("t%d", %s)' % (self.tagn, self.lit(INT)))
                return ("bin", op, se, ("atom", lit)) if r.random() < 0.6 or op in ("/", "%", "<<", "-") else ("bin", op, ("atom", lit), se)
            op, lit = r.choice([("&&", "false"), ("&&", "true"), ("||", "true"), ("||", "false")])
            se = ("atom", '%s("t%d")' % (r.choice("TF"), self.tagn))
            return ("bin", op, se, ("atom", lit)) if r.random() < 0.6 else ("bin", op, ("atom", lit), se)
        if t == INT:
            k = r.random()
            if k < 0.7:
                op = r.choice(["*", "/", "%", "+", "-", "+", "-", "<<", ">>", "&", "^", "|"])
                self.note("flat:" + op)
                rhs = ("atom", str(r.randint(0, 3))) if op in ("<<", ">>") else (("atom", str(r.choice([1, 2, 3, 7, 7, 2, 0]))) if op in ("/", "%") and r.random() > self.error_rate else self.tree(env, INT, d + 1))
                return ("bin", op, self.tree(env, INT, d + 1), rhs)
            if k < 0.85:
                return ("un", r.choice(["-", "+", "~"]), self.tree(env, INT, d + 1))
            return ("tern", self.tree(env, BOOL, d + 1), self.tree(env, INT, d + 1), self.tree(env, INT, d + 1))
        k = r.random()
        if k < 0.35:
            op = r.choice(["<", "<=", ">", ">=", "==", "!="])
            self.note("flat:" + op)
            return ("bin", op, self.tree(env, INT, d + 1), self.tree(env, INT, d + 1))
        if k < 0.8:
            op = r.choice(["&&", "||"])
            self.note("flat:" + op)
            return ("bin", op, self.tree(env, BOOL, d + 1), self.tree(env, BOOL, d + 1))
        if k < 0.9:
            return ("bin", r.choice(["==", "!="]), self.tree(env, BOOL, d + 1), self.tree(env, BOOL, d + 1))
        return ("un", "!", self.tree(env, BOOL, d + 1))

    def prec(self, n):
        return {"atom": 12, "un": 11, "tern": 0}.get(n[0]) if n[0] != "bin" else self.PREC[n[1]]

    def render(self, n, top=True):
        full = self.full_parens
        if n[0] == "atom":
            return n[1]
        if n[0] == "un":
            e = self.render(n[2], False)
            return n[1] + ("(%s)" % e if full or n[2][0] != "atom" else e)
        if n[0] == "tern":
            parts = [self.render(x, False) for x in n[1:]]
            parts = ["(%s)" % x if full and c[0] != "atom" or c[0] == "tern" else x for x, c in zip(parts, n[1:])]
            s = "%s ? %s : %s" % tuple(parts)
            return "(%s)" % s      # a conditional is always written in parentheses: its own associativity is not part of this family
        p = self.PREC[n[1]]
        a, b = self.render(n[2], False), self.render(n[3], False)
        if (full and n[2][0] != "atom") or self.prec(n[2]) < p:
            a = "(%s)" % a
        if (full and n[3][0] != "atom") or self.prec(n[3]) <= p:
            b = "(%s)" % b
        s = "%s %s %s" % (a, n[1], b)
        return "(%s)" % s if top else s

    def arg(self, env, depth):
        """a call argument: parameters alias the caller's variable, so a loop counter is passed by value"""
        e = self.expr(env, INT, depth + 1)
        if e in env and not env[e][1]:
            return "(%s + 0)" % e
        return e

    def vars_of(self, env, t, mutable=False):
        return [n for n, (ty, mut) in env.items() if ty == t and (mut or not mutable)]

    def expr(self, env, t, depth=0):
        r = self.r
        vs = self.vars_of(env, t)
        if depth >= self.max_depth or r.random() < 0.25:
            if vs and r.random() < 0.6:
                return r.choice(vs)
            return self.lit(t)
        if self.f.get("flat") and t in (INT, BOOL) and r.random() < self.f["flat"]:
            self.note("flat-expression")
            return self.render(self.tree(env, t, 0))
        if self.f.get("opt") and t in (INT, BOOL) and r.random() < self.f["opt"]:
            self.note("constant-expression")
            return self.const_expr(t, 0)
        if t == INT and self.f.get("callbacks") and r.random() < self.f["callbacks"]:
            self.note("callback")
            return "cb(%s)" % self.expr(env, INT, depth + 1)
        if t == INT:
            k = r.random()
            if k < 0.45:
                op = r.choice(["+", "-", "*", "+", "-", "%", "/"])
                a = self.expr(env, INT, depth + 1)
                b = self.expr(env, INT, depth + 1)
                if op in ("/", "%"):
                    self.note("division")
                    if r.random() > self.error_rate:
                        b = "(%s + 11)" % b if not b.isdigit() or b == "0" else b
                if op == "*":
                    b = self.lit(INT)
                return "(%s %s %s)" % (a, op, b)
            if k < 0.55:
                return "(-%s)" % self.expr(env, INT, depth + 1)
            if k < 0.7 and self.funcs:
                fn, n, rt = r.choice(self.funcs)
                if rt == INT:
                    self.note("call")
                    return "%s(%s)" % (fn, ", ".join(self.arg(env, depth) for _ in range(n)))
            if k < 0.8:
                vv = self.vars_of(env, VEC)
                if vv:
                    v = r.choice(vv)
                    self.note("vec-size")
                    return "(%s.size() * 1)" % v if r.random() < 0.5 else "%s.size()" % v
            if k < 0.9:
                return "(%s ? %s : %s)" % (self.expr(env, BOOL, depth + 1), self.expr(env, INT, depth + 1), self.expr(env, INT, depth + 1)) if self.f.get("ternary") else self.lit(INT)
            if self.f.get("temps") and r.random() < self.f["temps"]:
                # an element of a temporary container: the call that produced the container has returned when the element is used
                self.note("element-of-temporary")
                items = [self.expr(env, INT, depth + 1) for _ in range(r.randint(1, 3))]
                form = r.random()
                if form < 0.5:
                    return "[%s][%d]" % (", ".join(items), r.randrange(len(items)))
                return "[%s].%s()" % (", ".join(items), r.choice(["front", "back"]))
            return self.lit(INT)
        if t == BOOL:
            k = r.random()
            if k < 0.45:
                return "(%s %s %s)" % (self.expr(env, INT, depth + 1), r.choice(["<", ">", "<=", ">=", "==", "!="]), self.expr(env, INT, depth + 1))
            if k < 0.65:
                self.note("logical")
                return "(%s %s %s)" % (self.expr(env, BOOL, depth + 1), r.choice(["&&", "||"]), self.expr(env, BOOL, depth + 1))
            if k < 0.75:
                return "(!%s)" % self.expr(env, BOOL, depth + 1)
            if k < 0.85:
                return "(%s == %s)" % (self.expr(env, STR, depth + 1), self.expr(env, STR, depth + 1))
            return self.lit(BOOL)
        if t == STR:
            k = r.random()
            if k < 0.4:
                return "(%s + %s)" % (self.expr(env, STR, depth + 1), self.expr(env, STR, depth + 1))
            if k < 0.6:
                return "to_string(%s)" % self.expr(env, INT, depth + 1)
            return self.lit(STR)
        if t == VEC:
            if vs and r.random() < 0.5:
                return r.choice(vs)
            return "[" + ", ".join(self.expr(env, INT, depth + 1) for _ in range(r.randint(0, 3))) + "]"

    # ------------------------------------------------------------ statements
    def block(self, env, depth, in_loop, in_fn, n=None):
        env = dict(env)
        out = []
        for _ in range(n if n is not None else self.r.randint(1, 4)):
            out.append(self.stmt(env, depth, in_loop, in_fn))
        return "{ " + "; ".join(out) + " }"

    def stmt(self, env, depth, in_loop, in_fn):
        r = self.r
        k = r.random()
        deep = depth >= self.max_depth
        if k < 0.16:
            t = r.choice([INT, INT, INT, BOOL, STR, VEC])
            n = self.fresh()
            form = r.random()
            e = self.expr(env, t, depth + 1)
            env[n] = (t, True)
            self.note("decl")
            if form < 0.7:
                return "var %s = %s" % (n, e)
            if form < 0.85:
                return "auto %s = %s" % (n, e)
            return "var %s; %s = %s" % (n, n, e)
        if k < 0.30:
            t = r.choice([INT, INT, BOOL, STR])
            vs = self.vars_of(env, t, mutable=True)
            if vs:
                v = r.choice(vs)
                self.note("assign")
                if t == INT and r.random() < 0.5:
                    return "%s %s %s" % (v, r.choice(["+=", "-=", "*="]), self.lit(INT))
                if t == INT and r.random() < 0.2:
                    return r.choice(["++", "--"]) + v
                if t == STR and r.random() < 0.4:
                    return "%s += %s" % (v, self.expr(env, STR, depth + 1))
                return "%s = %s" % (v, self.expr(env, t, depth + 1))
        if k < 0.40:
            self.note("print")
            t = r.choice([INT, INT, BOOL, STR])
            return "print(%s)" % self.expr(env, t, depth + 1)
        if k < 0.50 and not deep:
            self.note("if")
            s = "if (%s) %s" % (self.cond(env, depth), self.block(env, depth + 1, in_loop, in_fn))
            if r.random() < 0.5:
                s += " else %s" % self.block(env, depth + 1, in_loop, in_fn)
            return s
        if k < 0.58 and not deep:
            return self.for_loop(env, depth, in_fn)
        if k < 0.63 and not deep:
            self.note("while")
            c = self.fresh("w")
            body = self.block(dict(env, **{c: (INT, False)}), depth + 1, True, in_fn)
            return "var %s = 0; while (%s < %d) { ++%s; %s }" % (c, c, r.randint(0, 4), c, body[2:-2])
        if k < 0.68 and not deep:
            vv = self.vars_of(env, VEC)
            src = r.choice(vv) if vv and r.random() < 0.6 else self.expr(env, VEC, depth + 1)
            e = self.fresh("e")
            self.note("ranged-for")
            benv = dict(env, **{e: (INT, True)})
            if src in benv:
                benv[src] = (VEC, False)   # modifying a container while iterating over it is outside every property here
            return "for (%s : %s) %s" % (e, src, self.block(benv, depth + 1, True, in_fn))
        if k < 0.72 and in_loop:
            self.note("break/continue")
            return "if (%s) { %s }" % (self.cond(env, depth), r.choice(["break", "continue"]))
        if k < 0.76 and in_fn:
            self.note("return")
            return "if (%s) { return %s }" % (self.cond(env, depth), self.expr(env, INT, depth + 1))
        if k < 0.80 and not deep:
            self.note("block")
            return self.block(env, depth + 1, in_loop, in_fn)
        if k < 0.84:
            vv = self.vars_of(env, VEC, mutable=True)
            if vv:
                v = r.choice(vv)
                self.note("vec-mutate")
                c = r.random()
                if c < 0.6:
                    return "%s.push_back(%s)" % (v, self.expr(env, INT, depth + 1))
                if c < 0.8:
                    return "if (!%s.empty()) { %s[0] = %s }" % (v, v, self.expr(env, INT, depth + 1))
                return "if (!%s.empty()) { %s.pop_back() }" % (v, v)
        if k < 0.88 and not deep:
            return self.try_stmt(env, depth, in_loop, in_fn)
        if k < 0.91 and not deep:
            return self.switch_stmt(env, depth, in_loop, in_fn)
        if k < 0.94 and self.funcs:
            fn, n, rt = r.choice(self.funcs)
            self.note("unused-call")
            return "%s(%s)" % (fn, ", ".join(self.arg(env, depth) for _ in range(n)))
        if k < 0.96 and not deep:
            return self.lambda_stmt(env, depth)
        if k < 0.975:
            # dead statements: bare constants / identifiers
            self.note("dead-stmt")
            vs = list(env)
            return r.choice(vs) if vs and r.random() < 0.5 else self.lit(INT)
        if k < 0.985:
            vs = self.vars_of(env, INT, mutable=True)
            if vs:
                self.note("reference")
                n = self.fresh("r")
                v = r.choice(vs)
                env[n] = (INT, True)
                return "%s &%s = %s; %s += 1" % (r.choice(["var", "auto"]), n, v, n)
        if self.f.get("temps") and r.random() < 0.35:
            # a statement call (result unused) whose argument refers into a temporary made by a nested call
            self.note("reference-into-temporary-argument")
            return "print((to_string(%s) + \"abcdefghijklmnopqrstuvwxyz0123456789\")[%d])" % (self.expr(env, INT, depth + 1), r.randint(0, 20))
        if self.f.get("opt") and r.random() < 0.5:
            c = r.random()
            n = self.fresh("k")
            if c < 0.2:
                # a logical operator with one literal operand whose *result* is used as a value: bound by reference and the other operand changed
                # afterwards, assigned to, or not a bool at all
                self.note("logical-with-literal-as-value")
                lit, op = r.choice([("true", "&&"), ("false", "||")])
                m = self.fresh("fl")
                form = r.random()
                e = "%s %s %s" % ((lit, op, m) if r.random() < 0.7 else (m, op, lit))
                if form < 0.4:
                    return "var %s = %s; %s %s = (%s); %s = !%s; print(%s); print(%s)" % (m, r.choice(["true", "false"]), r.choice(["auto &", "var &"]), n, e, m, m, n, m)
                if form < 0.6:
                    return "var %s = %s; var %s := (%s); %s = !%s; print(%s)" % (m, r.choice(["true", "false"]), n, e, m, m, n)
                if form < 0.8:
                    return "var %s = %s; try { var %s = (%s); print(%s) } catch(e) { print(\"not boolean\") }" % (m, r.choice(["3", "0", '"s"']), n, e, n)
                return "var %s = %s; try { (%s) = %s; print(\"assigned\") } catch(e) { print(\"no assign\") }; print(%s)" % (m, r.choice(["true", "false"]), e, r.choice(["true", "false"]), m)
            if c < 0.35:
                self.note("conversion-bound-by-reference")
                return "auto &%s = %s(%s); %s; print(%s)" % (n, r.choice(["int", "long"]), self.lit(INT), r.choice(["%s += 1", "++%s", "%s = 9"]) % n, n)
            if c < 0.5 and in_fn:
                self.note("trailing-return")
                return "return %s" % self.expr(env, INT, depth + 1)
            if c < 0.75:
                self.note("single-statement-block")
                return "{ print(%s) }" % self.expr(env, INT, depth + 1)
            self.note("constant-if")
            return "if (%s) { print(%s) } else { print(%s) }" % (self.const_expr(BOOL, 0), self.expr(env, INT, depth + 1), self.expr(env, INT, depth + 1))
        if r.random() < self.error_rate * 4:
            self.note("injected-error")
            return r.choice(["undefined_%d" % r.randint(0, 9), "print(1 / 0)", "var dz%d = 7; print(dz%d / 0)" % ((self.counter,) * 2), "var dm%d = 7; print(dm%d %% 0)" % ((self.counter,) * 2), "var dv%d = 0; print(5 / dv%d)" % ((self.counter,) * 2), "throw(%s)" % self.lit(INT), "nofun(1)", "if (1) { }", "var q%d = 1; var q%d = 2" % ((self.counter,) * 2)])
        return "print(%s)" % self.expr(env, INT, depth + 1)

    def cond(self, env, depth):
        r = self.r
        if r.random() < 0.15:
            self.note("const-cond")
            return r.choice(["true", "false", "1 < 2", "true && false", "false || true"])
        return self.expr(env, BOOL, depth + 1)

    def for_loop(self, env, depth, in_fn):
        r = self.r
        i = self.fresh("i")
        lo, hi = r.randint(0, 2), r.randint(0, 5)
        shape = r.random()
        benv = dict(env, **{i: (INT, False)})   # the body may read the counter; only the explicit escapes below write it (monotonically)
        body = self.block(benv, depth + 1, True, in_fn)
        if r.random() < 0.3:
            # the body assigns / captures the counter
            body = "{ " + r.choice(["%s += 1" % i, "var g%d = fun[%s]() { %s }; print(g%d())" % (self.counter, i, i, self.counter)]) + "; " + body[2:]
            self.note("for-counter-escape")
        if shape < 0.55:
            self.note("for-optimizable")
            return "for (var %s = %d; %s < %d; ++%s) %s" % (i, lo, i, hi, i, body)
        self.note("for-near-miss")
        c = r.randint(0, 4)
        if c == 0:
            return "for (var %s = %d; %s <= %d; ++%s) %s" % (i, lo, i, hi, i, body)
        if c == 1:
            return "for (var %s = %d; %s < %d; %s += 1) %s" % (i, lo, i, hi, i, body)
        if c == 2:
            b = self.vars_of(env, INT)
            return "for (var %s = %d; %s < %s; ++%s) %s" % (i, lo, i, (r.choice(b) + " % 5") if b else str(hi), i, body)
        if c == 3:
            return "for (auto %s = %d; %s < %d; ++%s) %s" % (i, lo, i, hi, i, body)
        return "for (var %s = %d; %d > %s; ++%s) %s" % (i, lo, hi, i, i, body)

    def try_stmt(self, env, depth, in_loop, in_fn):
        r = self.r
        self.note("try")
        thrown = r.choice(["throw(%s)" % self.lit(INT), "throw(%s)" % self.lit(STR), "print(1 / 0)", "var tv = [1]; print(tv[3])", "print(1)", "undefined_in_try"])
        body = self.block(env, depth + 1, in_loop, in_fn)
        body = "{ " + (body[2:-2] + "; " + thrown if r.random() < 0.5 else thrown + "; " + body[2:-2]) + " }"
        clauses = []
        for _ in range(r.randint(0, 2)):
            ty = r.choice(["", "", "int ", "string ", "arithmetic_error ", "runtime_error ", "eval_error ", "out_of_range ", "exception "])
            e = self.fresh("x")
            cb = self.block(env, depth + 1, in_loop, in_fn)
            if r.random() < 0.15:
                cb = "{ " + cb[2:-2] + "; throw(%s) }" % self.lit(INT)
                self.note("catch-throws")
            clauses.append("catch(%s%s) %s" % (ty, e, cb))
        fin = ""
        if r.random() < 0.5 or not clauses:
            fin = " finally %s" % self.block(env, depth + 1, in_loop, in_fn)
            self.note("finally")
        s = "try %s %s%s" % (body, " ".join(clauses), fin)
        if r.random() < 0.6:
            # keep the program going when the exception escapes
            s = "try { %s } catch(%s) { print(\"outer\") }" % (s, self.fresh("o"))
        return s

    def switch_stmt(self, env, depth, in_loop, in_fn):
        r = self.r
        self.note("switch")
        cases = []
        for v in r.sample([0, 1, 2, 3, 5], r.randint(1, 3)):
            b = self.block(env, depth + 1, in_loop, in_fn)
            if r.random() < 0.5:
                b = b[:-2] + "; break }"
            cases.append("case (%d) %s" % (v, b))
        if r.random() < 0.5:
            cases.append("default %s" % self.block(env, depth + 1, in_loop, in_fn))
        return "switch (%s) { %s }" % (self.expr(env, INT, depth + 1), " ".join(cases))

    def lambda_stmt(self, env, depth):
        r = self.r
        self.note("lambda")
        caps = [v for v in self.vars_of(env, INT) if r.random() < 0.5][:2]
        p = self.fresh("p")
        lenv = {c: env[c] for c in caps}
        lenv[p] = (INT, True)
        n = self.fresh("l")
        body = self.block(lenv, depth + 1, False, True, n=r.randint(0, 2))
        body = body[:-2] + ("; " if len(body) > 4 else "") + self.expr(lenv, INT, depth + 1) + " }"
        s = "var %s = fun[%s](%s) %s; print(%s(%s))" % (n, ", ".join(caps), p, body, n, self.arg(env, depth))
        if caps and r.random() < 0.4:
            mv = [c for c in caps if env[c][1]]
            if mv:
                s += "; %s += 1; print(%s(1))" % (mv[0], n)
                self.note("capture-then-mutate")
        return s

    def func(self):
        r = self.r
        name = self.fresh("f")
        n = r.randint(0, 2)
        params = [self.fresh("a") for _ in range(n)]
        # a parameter bound to a literal or a temporary cannot be assigned to: most parameters are read-only for the generator, so that
        # a call does not end the whole program early
        env = {p: (INT, r.random() < 0.15) for p in params}
        typed = self.f.get("typed") and r.random() < self.f["typed"]
        decl = [("int " + p if typed and r.random() < 0.6 else p) for p in params]
        if typed:
            self.note("typed-parameter")
        guard = ""
        if n and r.random() < 0.3:
            guard = " : %s %s %s" % (params[0], r.choice(["<", ">", "=="]), self.lit(INT))
            self.note("guard")
            if self.f.get("flat") and r.random() < 0.6:
                self.tagn = getattr(self, "tagn", 0) + 1
                self.uses_trace = True
                guard = ' : G("g%d",%s)' % (self.tagn, guard[2:])
                self.note("guard-with-side-effect")
        body = self.block(env, 1, False, True)
        body = body[:-2] + "; " + self.expr(env, INT, 2) + " }"
        s = "def %s(%s)%s %s" % (name, ", ".join(decl), guard, body)
        if guard and r.random() < 0.8:
            b2 = self.block(env, 1, False, True)
            s += "; def %s(%s) %s" % (name, ", ".join(params), b2[:-2] + "; " + self.expr(env, INT, 2) + " }")
        self.funcs.append((name, n, INT))
        self.note("def")
        return s

    def loop_families(self):
        """counting loops whose counter or activation is shared in unusual ways: recursion through the loop body, a counter returned or
        captured and read after the function ran again"""
        r = self.r
        k = self.fresh("q")
        c = r.random()
        lo, hi = r.randint(0, 1), r.randint(2, 4)
        if c < 0.35:
            self.note("recursion-through-loop")
            return ["def wk%s(d) { var s = 0; for (var i = %d; i < %d; ++i) { if (d > 0) { s += wk%s(d - 1) }; s = s * 2 + i }; s }" % (k, lo, hi, k)], \
                   ["print(wk%s(%d))" % (k, r.randint(0, 3)), "print(wk%s(1))" % k]
        if c < 0.6:
            self.note("counter-returned")
            return ["def fg%s(n) { for (var i = 0; i < 10; ++i) { if (i >= n) { return i } }; -1 }" % k], \
                   ["var ra%s := fg%s(%d)" % (k, k, r.randint(1, 4)), "var rb%s := fg%s(%d)" % (k, k, r.randint(5, 8)), "print(ra%s)" % k, "print(ra%s + rb%s)" % (k, k)]
        if c < 0.85:
            self.note("counter-captured")
            return ["def mk%s() { var f; for (var i = 0; i < %d; ++i) { f = fun[i]() { i } }; f }" % (k, hi)], \
                   ["var fa%s = mk%s()" % (k, k), "print(fa%s())" % k, "var fb%s = mk%s()" % (k, k), "print(fa%s() + fb%s())" % (k, k)]
        if c < 0.93:
            self.note("counter-bound-by-reference")
            return [], ["var keep%s; for (var i = 0; i < %d; ++i) { keep%s := i }; print(keep%s)" % (k, hi, k, k),
                        "var kv%s = []; for (var i = 0; i < %d; ++i) { for (var j = 0; j < 2; ++j) { kv%s.push_back(fun[i]() { i }) } }; print(kv%s[0]() + kv%s[%d]())" % (k, hi, k, k, k, 2 * hi - 1)]
        self.note("nested-counting-loops")
        return [], ["var t%s = 0; for (var i = 0; i < %d; ++i) { for (var j = 0; j < %d; ++j) { t%s += i * 10 + j; if (j == 1) { continue } }; if (i == %d) { break } }; print(t%s)" % (k, hi, hi, k, hi - 1, k)]

    def map_family(self):
        """map literals (repeated and computed keys), lookups, insertion through [], copies, size"""
        r = self.r
        k = self.fresh("m")
        keys = ["a", "b", "c", "ab", "k1"]
        items = []
        for _ in range(r.randint(1, 5)):
            key = r.choice(keys)
            kx = '"%s"' % key if r.random() < 0.7 else '("%s" + "%s")' % (key[:1], key[1:])
            items.append("%s: %s" % (kx, r.choice([str(r.randint(0, 9)), '"s%d"' % r.randint(0, 3), "[%d]" % r.randint(0, 3), "(1 + %d)" % r.randint(0, 5)])))
        stmts = ["var mp%s = [%s]" % (k, ", ".join(items)), "print(mp%s.size())" % k]
        for _ in range(r.randint(1, 4)):
            key = r.choice(keys)
            c = r.random()
            if c < 0.4:
                stmts.append('try { print(to_string(mp%s["%s"])) } catch(e) { print("no value") }' % (k, key))
            elif c < 0.7:
                stmts.append('try { mp%s["%s"] = %d } catch(e) { print("no assign") }' % (k, key, r.randint(10, 19)))
            elif c < 0.85:
                stmts.append('var cp%s%d = mp%s; cp%s%d["%s"] = 77; print(mp%s.size())' % (k, len(stmts), k, k, len(stmts), key, k))
            else:
                stmts.append("print(mp%s.size()); print(mp%s.empty())" % (k, k))
        self.note("map-family")
        return stmts

    def class_family(self):
        """script-defined classes: attributes, constructor overloads (typed / guarded / untyped), methods (getters, mutators answering `this`,
        methods calling methods, typed and guarded overloads), a second class sharing method names, free functions whose parameters are typed
        with a class (called with objects of either class and with non-objects), copies versus references of objects, attributes created on
        the spot, functions held in attributes, members that do not exist"""
        r = self.r
        k = self.fresh("K")
        A, B = "Ka%s" % k, "Kb%s" % k
        two = r.random() < 0.6
        defs = []
        # class A
        body = ["attr v", r.choice(["attr w", "var w"])]
        ctors = ["def %s() { this.v = %d; this.w = %s }" % (A, r.randint(0, 5), r.choice(['"w"', "[1, 2]", "0"]))]
        if r.random() < 0.7:
            ctors.append("def %s(int a) : a > %d { this.v = a; this.w = \"big\" }" % (A, r.randint(3, 8)))
            self.note("class:guarded-constructor")
        if r.random() < 0.7:
            ctors.append("def %s(a) { this.v = %s; this.w = a%s }" % (A, r.choice(["-1", "a", "7"]), r.choice(["", "; return 5"])))
        r.shuffle(ctors)
        body += ctors
        body.append("def gv%s() { this.v }" % k)
        body.append("def bump%s(%sd) { this.v += d; this }" % (k, r.choice(["", "int "])))
        body.append('def tag%s() { "%s" }' % (k, A))
        body.append("def desc%s() { this.tag%s() + \":\" + to_string(this.gv%s()) }" % (k, k, k))
        if r.random() < 0.5:
            body.append('def pick%s(int x) { "int" }' % k)
            body.append('def pick%s(string x) { "string" }' % k)
            body.append('def pick%s(x) { "any" }' % k)
            self.note("class:typed-method-overloads")
        if r.random() < 0.5:
            body.append('def lvl%s(a) : a > this.v { "above" }' % k)
            body.append('def lvl%s(a) { "not above" }' % k)
            self.note("class:guarded-method")
        defs.append("class %s { %s }" % (A, "; ".join(body)))
        if two:
            bb = ["attr v", "attr inner", "def %s() { this.v = %d; this.inner = %s(%d) }" % (B, r.randint(10, 20), A, r.randint(0, 12)),
                  'def tag%s() { "%s" }' % (k, B), "def gv%s() { this.v * 2 }" % k,
                  "def mix%s(%s o) { this.v + o.v }" % (k, A), "def mix%s(%s o) { this.v * 100 + o.v }" % (k, B)]
            defs.append("class %s { %s }" % (B, "; ".join(bb)))
            self.note("class:two-classes")
        if r.random() < 0.5:
            defs.append("def %s::late%s(x) { x + this.v }" % (A, k))
            self.note("class:method-outside-class")
        # free functions typed with the classes
        shows = ['def show%s(%s p) { print("%s " + to_string(p.v)) }' % (k, A, A)]
        if two and r.random() < 0.7:
            shows.append('def show%s(%s p) { print("%s " + to_string(p.v)) }' % (k, B, B))
        if r.random() < 0.8:
            shows.append('def show%s(p) { print("other") }' % k)
        r.shuffle(shows)
        defs += shows
        self.note("class:class-typed-parameter")
        # statements
        st = []
        o1, o2 = "oa%s" % k, "ob%s" % k
        has_any = any(c.startswith("def %s(a) " % A) for c in ctors)
        has_int = any(c.startswith("def %s(int a)" % A) for c in ctors)
        st.append("var %s = %s(%s)" % (o1, A, r.choice(["", "2", "20", '"s"', "[3]"] if has_any else (["", "20", "20"] if has_int else [""]))))
        if r.random() < 0.5:
            st.append('try { print(%s(%s).v) } catch(e) { print("no constructor") }' % (A, r.choice(["2", "20", '"s"', "1, 2"])))
            self.note("class:constructor-selection")
        st.append("print(%s.desc%s())" % (o1, k))
        if two:
            st.append("var %s = %s()" % (o2, B))
            st.append("print(%s.tag%s() + to_string(%s.gv%s()))" % (o2, k, o2, k))
        objs = [o1] + ([o2] if two else [])
        pool = []
        for _ in range(r.randint(3, 8)):
            c = r.random()
            o = r.choice(objs)
            if c < 0.15:
                a = r.choice(objs + ["4", '"s"', "true", "[1]", "%s.v" % o1])
                pool.append("try { show%s(%s) } catch(e) { print(\"no show\") }" % (k, a))
            elif c < 0.27:
                q = self.fresh("cp")
                pool.append("var %s = %s; %s.v = 99; print(%s.v); print(%s.v)" % (q, o, q, o, q))
                self.note("class:copy-then-mutate")
            elif c < 0.36:
                q = self.fresh("rf")
                pool.append("auto &%s = %s; %s.v = 55; print(%s.v)" % (q, o, q, o))
                self.note("class:reference")
            elif c < 0.46:
                pool.append("%s.bump%s(%s); print(%s.gv%s())" % (o1, k, r.choice(["1", "3", "(1 + 1)"]), o1, k))
                pool.append("print(%s.bump%s(1).bump%s(2).v)" % (o1, k, k))
            elif c < 0.55:
                pool.append("%s.extra = %s; print(%s.extra)" % (o, r.choice(["5", '"e"', "[1, 2]"]), o))
                self.note("class:attribute-created-on-the-spot")
            elif c < 0.65:
                pool.append("%s.fn = fun(a) { a + this.v }; print(%s.fn(%d))" % (o, o, r.randint(0, 5)))
                pool.append("try { print(%s.fn()) } catch(e) { print(\"fn arity\") }" % o)
                self.note("class:function-in-attribute")
            elif c < 0.73:
                pool.append("try { print(%s.nothere%s(1)) } catch(e) { print(\"no member\") }" % (o, k))
                pool.append("try { print(%s.v(1)) } catch(e) { print(\"not a function\") }" % o)
                pool.append("print(%s.v())" % o)
                self.note("class:missing-member")
            elif c < 0.8:
                pool.append("print(gv%s(%s)); print(tag%s(%s))" % (k, o, k, o))
                self.note("class:method-as-function")
            elif c < 0.88 and two:
                a = r.choice(objs + ["3"])
                pool.append("try { print(%s.mix%s(%s)) } catch(e) { print(\"no mix\") }" % (o2, k, a))
                pool.append("try { print(%s.mix%s(%s)) } catch(e) { print(\"wrong class\") }" % (o1, k, o2))
                pool.append("%s.inner.v = 41; print(%s.inner.gv%s())" % (o2, o2, k))
            elif c < 0.94:
                pool.append('try { print(%s.pick%s(%s)) } catch(e) { print("no pick") }' % (o1, k, r.choice(["1", '"s"', "true", o1])))
                pool.append('try { print(%s.lvl%s(%d)) } catch(e) { print("no lvl") }' % (o1, k, r.randint(0, 30)))
            else:
                pool.append("try { print(%s.late%s(3)) } catch(e) { print(\"no late\") }" % (o, k))
                pool.append("try { def %s::tag%s() { \"again\" } } catch(e) { print(\"redefined\") }" % (A, k))
        st += pool
        self.note("class-family")
        return defs, st

    def overload_family(self):
        """one name, overloads that differ in declared parameter types (and an untyped catch-all), defined in random order, called with each kind of value"""
        r = self.r
        name = self.fresh("ov")
        kinds = r.sample(["int", "string", "bool", "Vector", ""], r.randint(2, 4))
        defs = []
        for k in kinds:
            tag = k or "any"
            extra = r.random() < 0.3
            defs.append("def %s(%s%s) { print(\"%s:%s\"); %d }" % (name, (k + " " if k else "") + "x", ", y" if extra else "", name, tag + ("2" if extra else ""), r.randint(0, 9)))
        calls = []
        for _ in range(r.randint(2, 5)):
            a = r.choice(["1", "\"s\"", "true", "[1, 2]", "(1 + 2)", "to_string(3)", "[]", "(1 < 2)"])
            calls.append("%s(%s%s)" % (name, a, ", 5" if r.random() < 0.25 else ""))
        self.note("overload-family")
        return defs, ["try { print(%s) } catch(e) { print(\"no overload\") }" % c for c in calls]

    def program(self):
        r = self.r
        parts = []
        for _ in range(r.randint(0, 2)):
            parts.append(self.func())
        if self.f.get("typed") and r.random() < self.f["typed"]:
            d, c = self.overload_family()
            parts += d
            self.pending_calls = c
        if self.f.get("maps") and r.random() < self.f["maps"]:
            self.pending_calls = getattr(self, "pending_calls", []) + self.map_family()
        if self.f.get("classes") and r.random() < self.f["classes"]:
            d, c = self.class_family()
            parts += d
            self.pending_calls = getattr(self, "pending_calls", []) + c
        if self.f.get("loops") and r.random() < self.f["loops"]:
            d, c = self.loop_families()
            parts += d
            self.pending_calls = getattr(self, "pending_calls", []) + c
        env = {}
        for _ in range(r.randint(2, 6)):
            parts.append(self.stmt(env, 0, False, False))
        parts += getattr(self, "pending_calls", [])
        t = r.choice([INT, INT, BOOL, STR, VEC])
        parts.append(self.expr(env, t, 1))
        sep = r.choice(["; ", "\n", ";\n"])
        if self.uses_trace:
            parts.insert(0, 'def N(s, v) { print(s); v }; def T(s) { print(s); true }; def F(s) { print(s); false }; def G(s, b) { print(s); b }')
        return sep.join(parts)


def programs(seed, n, **kw):
    rnd = random.Random(seed)
    out = []
    stats = {}
    for _ in range(n):
        g = Gen(rnd, **kw)
        out.append(g.program())
        for k, v in g.stats.items():
            stats[k] = stats.get(k, 0) + v
    return out, stats


if __name__ == "__main__":
    import sys
    ps, st = programs(int(sys.argv[1]) if len(sys.argv) > 1 else 0, int(sys.argv[2]) if len(sys.argv) > 2 else 5)
    for p in ps:
        print(p.replace("\n", "\\n"))
    print(st, file=sys.stderr)
