"""C02 — the AST optimizer never changes what a program does.
proof:   Properties_C02 (what is proved for all trees: Return is the identity, Partial_Fold yields the same effect program,
         folded constants carry exactly the value the runtime operator computes, every pass keeps constants const, a pass
         never fires on a node kind other than its own); the general semantic-preservation statement is kept as
         C02_full_statement and is decided per program by translation validation:
validation: for every program the implementation is run twice (optimizer on / off): stdout, result value+type, error class
         and reason, callback count must be equal; the Coq evaluator is run on both trees and must agree with both; the Coq
         optimizer applied to the implementation's unoptimised tree must give exactly the implementation's optimised tree.
known finding: Constant_Fold folds `int(c)` into a shared constant (difference disappears when that one branch is off)."""
import json
import vlib, evalcheck as E, gen_prog

KEY = "chaiscript_optimizer.hpp:Constant_Fold:conversion-call"


def warm():
    E.warm()


def optimizer_lines(b, lines):
    rc, res, err = vlib.run_lines(b, lines, timeout=3000)
    return res


def judge(c, progs, source):
    raw = E.run_impl(progs, "raw", ["shape"])
    opt = E.run_impl(progs, "opt", ["shape"])
    idx = [i for i in range(len(progs)) if "tree" in raw[i] and "tree" in opt[i]]
    for i in range(len(progs)):
        if ("tree" in raw[i]) != ("tree" in opt[i]):
            c.fail("the program parses with one parser configuration and not with the other", {"program": progs[i], "raw": raw[i]["raw"][:300], "optimised": opt[i]["raw"][:300], "source": source})
        elif "tree" not in raw[i]:
            c.dist["parse_error"] = c.dist.get("parse_error", 0) + 1
            if raw[i]["raw"] != opt[i]["raw"]:
                c.fail("the parse error differs between the two parser configurations", {"program": progs[i], "raw": raw[i]["raw"][:300], "optimised": opt[i]["raw"][:300], "source": source})
    b = E.bins()
    otrees = E.run_optimizer_model([raw[i]["tree"] for i in idx])
    evr = E.eval_tables([progs[i] for i in idx], "raw")
    evo = E.eval_tables([progs[i] for i in idx], "opt")
    mraw = E.run_model("mech", [raw[i]["tree"] for i in idx], evals=evr)
    mopt = E.run_model("mech", [opt[i]["tree"] for i in idx], evals=evo)
    suspects = []
    for k, i in enumerate(idx):
        c.cov["programs"] += 1
        c.cov["evaluations"] += 2
        o_raw = E.canon_obs(raw[i]["out"], raw[i]["res"]) + (cbcount(raw[i]),)
        o_opt = E.canon_obs(opt[i]["out"], opt[i]["res"]) + (cbcount(opt[i]),)
        changed = raw[i]["tree"] != opt[i]["tree"]
        c.dist["tree:" + ("rewritten" if changed else "unchanged")] = c.dist.get("tree:" + ("rewritten" if changed else "unchanged"), 0) + 1
        if changed:
            c.cov["distinct_nontrivial"] += 1
        for name in ("Compiled", "Scopeless_Block", "Assign_Decl", ":FoldRight", ":UnusedReturn"):
            if name in opt[i]["tree"]:
                c.dist["pass-visible:" + name.strip(":")] = c.dist.get("pass-visible:" + name.strip(":"), 0) + 1
        # tie 1: optimizer model == implementation's optimizer, tree for tree
        if otrees[k] == "UBFOLD":
            c.dist["undefined-constant-arithmetic (tree not compared)"] = c.dist.get("undefined-constant-arithmetic (tree not compared)", 0) + 1
        elif otrees[k] is not None:
            c.cov["disagreements_checked"] += 1
            if otrees[k] != opt[i]["tree"]:
                c.disagree("optimize_tree(raw tree) vs the implementation's optimised tree", progs[i], opt[i]["tree"][:1500], otrees[k][:1500])
        # tie 2: evaluator model on both trees
        for what, m, o in (("raw", mraw[k], o_raw), ("opt", mopt[k], o_opt)):
            if m is None:
                continue
            mo, mr = E.split_model(m)
            if mr.startswith("UNSUP") or mr.startswith("FUEL") or mo is None:
                c.dist["unsupported_by_model"] = c.dist.get("unsupported_by_model", 0) + 1
                continue
            c.cov["disagreements_checked"] += 1
            if E.canon_obs(mo, mr) != o[:2]:
                c.disagree("eval(%s tree)" % what, progs[i], o[:2], E.canon_obs(mo, mr))
        # the property
        if o_raw != o_opt:
            suspects.append((k, i, o_raw, o_opt))
        else:
            c.dist["outcome:" + ("error" if o_raw[1].startswith("ERR") else "value")] = c.dist.get("outcome:" + ("error" if o_raw[1].startswith("ERR") else "value"), 0) + 1
    if suspects:
        # attribution: with the conversion-call branch of Constant_Fold switched off in the model's optimizer, does the model,
        # run on that tree, behave like the unoptimised implementation — and with it on, like the optimised one?
        noconv = optimizer_lines(b["opt"], ["NOCONVFOLD " + raw[i]["tree"] for (_, i, _, _) in suspects]) if b.get("opt") else [None] * len(suspects)
        usable = [t if (t and t.startswith("(")) else "( File t=- l=0:0-0:0 )" for t in noconv]
        mno = E.run_model("mech", usable, evals=[evo[k] for (k, _, _, _) in suspects])
        # the faithful side of the attribution runs on the tree the *model's* optimizer (conversion fold on) makes from the raw tree, not on
        # the implementation's optimised tree: a rewrite the implementation made and the model's optimizer does not know must not be
        # explained away by the recorded finding
        own = [otrees[k] if (otrees[k] and otrees[k].startswith("(")) else "( File t=- l=0:0-0:0 )" for (k, _, _, _) in suspects]
        mown = E.run_model("mech", own, evals=[evo[k] for (k, _, _, _) in suspects])
        for (k, i, o_raw, o_opt), t, m, mo_ in zip(suspects, noconv, mno, mown):
            key = None
            if t and t.startswith("(") and m is not None and mo_ is not None and otrees[k] and otrees[k].startswith("("):
                a = E.canon_obs(*E.split_model(m))
                bb = E.canon_obs(*E.split_model(mo_))
                if a == o_raw[:2] and bb == o_opt[:2]:
                    key = KEY
            if key is None:
                # the same question asked of the implementation alone: route every conversion call through a script function (which
                # Constant_Fold does not recognise) and evaluate optimised; if that behaves like the unoptimised run, the fold of the
                # conversion call is the whole difference
                import re
                rw = "def cv_int(x) { int(x) }; def cv_long(x) { long(x) }; def cv_double(x) { double(x) }; def cv_float(x) { float(x) }; def cv_size_t(x) { size_t(x) }; " + \
                     re.sub(r"\b(int|long|double|float|size_t)\(", lambda m: "cv_" + m.group(1) + "(", progs[i])
                if rw.count("cv_") > 5:
                    r2 = E.run_impl([rw], "opt", ["shape"])[0]
                    if "tree" in r2 and E.canon_obs(r2["out"], r2["res"]) + (cbcount(r2),) == o_raw:
                        key = KEY
            c.fail("the optimised and the unoptimised evaluation of one program differ",
                   {"program": progs[i], "unoptimised": o_raw, "optimised": o_opt, "source": source}, finding_key=key)


def obs_of(r):
    return (E.canon_obs(r["out"], r["res"]) + (cbcount(r),)) if "tree" in r else ("PARSE", r.get("parse_error", "")[:80])


def rewrite_conversions(p):
    import re
    return "def cv_int(x) { int(x) }; def cv_long(x) { long(x) }; def cv_double(x) { double(x) }; def cv_float(x) { float(x) }; def cv_size_t(x) { size_t(x) }; " + \
           re.sub(r"\b(int|long|double|float|size_t)\(", lambda m: "cv_" + m.group(1) + "(", p)


def still_differs(variants):
    """batch predicate for the shrinker: optimised and unoptimised runs differ, and not merely through the known conversion fold"""
    ps = [v[0] for v in variants]
    raw = E.run_impl(ps, "raw", ["shape"])
    opt = E.run_impl(ps, "opt", ["shape"])
    rw = E.run_impl([rewrite_conversions(p) for p in ps], "opt", ["shape"])
    return [obs_of(a) != obs_of(b) and obs_of(c) != obs_of(a) and "tree" in a and "tree" in b for a, b, c in zip(raw, opt, rw)]


def shrink_failures(c):
    import shrink
    for f in c.failures[:1]:
        case = f["case"]
        if "program" not in case or "unoptimised" not in case:
            continue
        try:
            small = shrink.shrink([case["program"]], still_differs)[0]
        except Exception as ex:      # shrinking is a convenience: never let it hide the failure
            case["shrink_error"] = str(ex)[:200]
            continue
        if small != case["program"] and len(small) < len(case["program"]):
            case["original_program"] = case["program"]
            case["program"] = small
            r, o = E.run_impl([small], "raw", ["shape"])[0], E.run_impl([small], "opt", ["shape"])[0]
            case["unoptimised"], case["optimised"] = obs_of(r), obs_of(o)


def cbcount(d):
    s = d.get("shape", "")
    return s.split(" CBCOUNT ")[1].split(" ")[0] if " CBCOUNT " in s else ""


def gen(tier, seed):
    n = {"quick": 700, "thorough": 8000}[tier]
    a, st = gen_prog.programs(seed * 1000003 + 2, n, max_depth=3, error_rate=0.05, features={"opt": 0.3, "callbacks": 0.1, "flat": 0.15, "loops": 0.4, "temps": 0.3})
    return a, st


def check(tier, seed):
    c = vlib.Check("C02", tier, seed)
    c.level = "translation_validation"
    c.cov["rule"] = ("programs from tools/gen_prog.py with the optimizer productions on (constant expressions incl. overflow, division by zero, shifts, ternaries and conversions; constant "
                     "conditions; single-statement and declaration-free blocks; canonical and near-miss for loops whose counter is captured or assigned; trailing returns; unused "
                     "call results; var x = e); non-trivial = the optimizer rewrote the tree; each program is evaluated with and without the optimizer")
    c.assumptions = ["'effects on C++-visible objects' are observed through the harness callback cb(int) (invocation count) and stdout",
                     "reasons of dispatch errors name internal functions and are compared by class only",
                     "programs the evaluator model does not support are still compared implementation-against-implementation"]
    c.prove("Properties_C02", translators=["NumTables", "OptOrder"])
    b = E.bins()
    if b.get("mech") is None:
        c.broken_ties.append(("correspondence", "eval: mechanism model does not build", b.get("mech_err")))
    if b.get("opt") is None:
        c.broken_ties.append(("correspondence", "optimizer model does not build (pass list or arithmetic tables no longer translate)", b.get("opt_err")))
    judge(c, E.corpus("C02.txt") + E.corpus("eval_core.txt"), "corpus")
    progs, st = gen(tier, seed)
    judge(c, progs, "generated")
    # memory errors that only the optimised tree provokes (a rewritten node that no longer keeps a temporary alive): the same programs under ASan+UBSan
    sub = E.corpus("C02.txt") + progs[:{"quick": 220, "thorough": 2500}[tier]]
    # constant arithmetic that is undefined in C++ is evaluated by the optimizer at parse time even in code that never runs; under UBSan that
    # alone stops the process, and it says nothing about the optimizer's rewrites: such programs are left out of this pass
    rawt = E.run_impl(sub, "raw")
    ub = E.run_optimizer_model([r.get("tree", "") for r in rawt])
    sub = [p for p, r, u in zip(sub, rawt, ub) if "tree" in r and u != "UBFOLD"]
    ao = E.run_impl(sub, "opt", asan=True)
    ar = E.run_impl(sub, "raw", asan=True)
    for p, o, r in zip(sub, ao, ar):
        c.cov["evaluations"] += 2
        c.dist["sanitizer-run"] = c.dist.get("sanitizer-run", 0) + 1
        died_o = "tree" not in o and not o.get("parse_error", "").startswith("PARSE-ERR")
        died_r = "tree" not in r and not r.get("parse_error", "").startswith("PARSE-ERR")
        if died_o and not died_r:
            c.fail("the optimised evaluation dies under the address/undefined-behaviour sanitizers, the unoptimised one does not",
                   {"program": p, "optimised": o.get("parse_error", "")[:200], "unoptimised": (r.get("res") or "")[:120], "source": "sanitizer"})
        elif died_o and died_r:
            c.dist["sanitizer: both runs die (not an optimizer matter)"] = c.dist.get("sanitizer: both runs die (not an optimizer matter)", 0) + 1
    c.dist.update({"construct:" + k: v for k, v in st.items()})
    for k in (0, len(progs) // 2):
        c.sample({"program": progs[k][:600]})
    shrink_failures(c)
    return c.finish()


def replay(path):
    d = json.load(open(path))
    case = d.get("case") or {}
    if "program" not in case:
        print("replay: broken proof/tie: %s" % d.get("what"))
        return 1
    raw = E.run_impl([case["program"]], "raw", ["shape"])[0]
    opt = E.run_impl([case["program"]], "opt", ["shape"])[0]
    print("unoptimised:", raw.get("out"), raw.get("res"))
    print("optimised:  ", opt.get("out"), opt.get("res"))
    same = (raw.get("out"), raw.get("res")) == (opt.get("out"), opt.get("res"))
    print("replay: %s" % ("not reproduced" if same else "reproduced"))
    return 0 if same else 1
