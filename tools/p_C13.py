"""C13 — One engine may be used from many threads at once.

PROOF part (Coq, coq/props/Properties_C13.v): C13_lockset (generic, by induction over executions) and its instance on the
 lock / field-access table that tools/translate/t_Locks.py regenerates from /repo on every run; C13_section_exclusive,
 C13_registration_sections; C13_retained, C13_visible (every interleaving of registration sections); C13_use_once and its
 instance on the regenerated body of ChaiScript_Basic::use.
TIE: translator (every run) + sequential histories of the same operations, implementation (harness/h_threads.cpp `seq`)
 against the extracted state-transformer model (extract/X_conc.v).
STRESS part (NOT proof; labelled as such in the evidence): T threads on one engine under ThreadSanitizer with injected
 yields/sleeps; outcomes checked against what the theorems allow.  This is the only coverage of races below the
 critical-section abstraction (Boxed_Value::Data, m_loc atomics, thread_local maps, shared_ptr control blocks, libstdc++)."""
import concurrent.futures, json, os, random, re, time
import vlib

TSAN_ENV = {"TSAN_OPTIONS": "halt_on_error=0 exitcode=66 report_signal_unsafe=0 second_deadlock_stack=1 history_size=3"}
MODEL_TOKENS = "FCGKSTVUNMLQYH"
NAMES_F = ["vf_a", "vf_b", "vf_c"]
NAMES_G = ["vg_x", "vg_y", "vg_z"]
NAMES_T = ["VNA", "VNB"]
PAIRS = [(a, b) for a in range(4) for b in range(4) if a != b]


# ---------------------------------------------------------------------------------------------
# canonical forms
# ---------------------------------------------------------------------------------------------
def canon_inventory(inv):
    out = []
    for sec, body in re.findall(r"(\w)\[ ?(.*?) ?\]", inv):
        toks = sorted(t for t in body.split(" ") if t)
        out.append("%s[%s]" % (sec, " ".join(toks)))
    return " ".join(out)


def canon_seq(line):
    res, _, inv = line.partition(" | ")
    return res.strip() + " | " + canon_inventory(inv)


# ---------------------------------------------------------------------------------------------
# sequential histories (tie of the state-transformer model)
# ---------------------------------------------------------------------------------------------
def gen_history(rnd, n):
    toks = []
    for _ in range(n):
        k = rnd.random()
        if k < 0.22:
            toks.append("%s:%s:%d" % (rnd.choice("FFFC"), rnd.choice(NAMES_F), rnd.randrange(0, 4)))
        elif k < 0.36:
            toks.append("%s:%s:%d" % (rnd.choice("GKS"), rnd.choice(NAMES_G), rnd.randrange(0, 50)))
        elif k < 0.44:
            toks.append("T:%s:%d" % (rnd.choice(NAMES_T), rnd.randrange(0, 4)))
        elif k < 0.54:
            toks.append("V:%d:%d" % rnd.choice(PAIRS[:6]))
        elif k < 0.62:
            toks.append("U:%d" % rnd.randrange(0, 3))
        elif k < 0.68:
            toks.append("N")
        elif k < 0.73:
            toks.append("M")
        elif k < 0.81:
            toks.append("L:%s" % rnd.choice(NAMES_F))
        elif k < 0.88:
            toks.append("Q:%s" % rnd.choice(NAMES_G + [t + "_type" for t in NAMES_T]))
        elif k < 0.93:
            toks.append("Y:%s" % rnd.choice(NAMES_T))
        else:
            toks.append("H:%d:%d" % rnd.choice(PAIRS[:6]))
    return "seq " + " ".join(toks)


def run_seq(c, hists, hbin, mbin):
    _, impl, err = vlib.run_lines(hbin, hists, timeout=900, args=["seq"])
    _, model, err2 = vlib.run_lines(mbin, hists, timeout=900)
    if len(impl) != len(hists) or len(model) != len(hists):
        raise vlib.BuildError("seq: harness/model produced %d/%d lines for %d histories\n%s\n%s" % (len(impl), len(model), len(hists), err[-1500:], err2[-1500:]))
    nontrivial = set()
    ndis = 0
    for h, i, m in zip(hists, impl, model):
        c.cov["evaluations"] += 1
        c.cov["traces_validated_against_impl"] += 1
        c.cov["disagreements_checked"] += 1
        if i.startswith("SIG(") or i.startswith("EXIT("):
            c.fail("the process died on a sequential history of engine-table operations", {"history": h, "impl": i, "spec": canon_seq(m)})
            continue
        ci, cm = canon_seq(i), canon_seq(m)
        if "conflict" in cm or " M" in h:
            nontrivial.add(h)
        if ci != cm:
            ndis += 1
            if ndis <= 10:
                c.disagree("sequential history: engine tables vs state-transformer model", h, ci, cm)
    for t in "FCGKSTVUNMLQYH":
        c.dist["seq-op:" + t] = c.dist.get("seq-op:" + t, 0) + sum(len(re.findall(r"(?<= )%s(?=[: ]|$)" % t, h)) for h in hists)
    c.dist["seq-histories"] = c.dist.get("seq-histories", 0) + len(hists)
    c.cov["distinct_nontrivial"] += len(nontrivial)
    return impl, model


# ---------------------------------------------------------------------------------------------
# multi-threaded mixes
# ---------------------------------------------------------------------------------------------
def gen_mix(rnd, T, kind):
    """-> (threads: list of token lists, contested: {token: [thread indexes]})"""
    th = [[] for _ in range(T)]
    contested = {}
    pairs = PAIRS[:]
    rnd.shuffle(pairs)
    if kind == "general":
        for t in range(T):
            ops = th[t]
            ops.append("D:%d" % rnd.randrange(1, 90))
            own_f, own_g, own_t, own_v = [], [], [], []
            n = rnd.randrange(10, 18)
            j = 0
            for _ in range(n):
                k = rnd.random()
                j += 1
                if k < 0.16:
                    ops.append("E:%d:%d" % (rnd.randrange(0, 50), rnd.randrange(3, 25)))
                elif k < 0.30:
                    a = rnd.randrange(0, 4)
                    nm = "vf_t%d_%d" % (t, j)
                    ops.append("F:%s:%d" % (nm, a))
                    own_f.append((nm, a))
                elif k < 0.36:
                    nm = "vf_t%d_c%d" % (t, j)
                    ops.append("C:%s:%d" % (nm, rnd.randrange(0, 4)))
                elif k < 0.44 and own_f:
                    nm, a = rnd.choice(own_f)
                    ops.append("X:%s:%s" % (nm, ",".join(str(rnd.randrange(0, 9)) for _ in range(a))))
                elif k < 0.52:
                    nm = "vg_t%d_%d" % (t, j)
                    ops.append("%s:%s:%d" % (rnd.choice("GK"), nm, rnd.randrange(0, 99)))
                    own_g.append(nm)
                elif k < 0.57 and own_g:
                    ops.append("Q:%s" % rnd.choice(own_g))
                elif k < 0.62:
                    nm = "VNt%d_%d" % (t, j)
                    ops.append("T:%s:%d" % (nm, rnd.randrange(0, 4)))
                    own_t.append(nm)
                elif k < 0.65 and own_t:
                    ops.append("Y:%s" % rnd.choice(own_t))
                elif k < 0.70 and pairs:
                    p = pairs.pop()
                    ops.append("V:%d:%d" % p)
                    own_v.append(p)
                elif k < 0.73 and own_v:
                    ops.append("H:%d:%d" % rnd.choice(own_v))
                elif k < 0.80:
                    ops.append("U:%d" % rnd.randrange(0, 3))
                elif k < 0.85:
                    ops.append("Z")
                elif k < 0.90:
                    ops.append("O:vc_t%d_%d:%d" % (t, j, rnd.randrange(1, 50)))
                elif k < 0.95:
                    ops.append("X:shared_script:%d" % rnd.randrange(0, 99))
                elif own_f:
                    ops.append("L:%s" % rnd.choice(own_f)[0])
        # contested registrations: the same item from two or more threads
        for j in range(2):
            who = rnd.sample(range(T), min(T, rnd.choice([2, 2, 3])))
            tok = rnd.choice(["F:vf_c%d:%d" % (j, rnd.randrange(0, 3)), "G:vg_c%d:7" % j, "K:vg_k%d:8" % j])
            for t in who:
                th[t].insert(rnd.randrange(1, len(th[t]) + 1), tok)
            contested[tok] = who
        # publish / subscribe: even threads publish, odd threads wait for the flag and must then see the function
        for j in range(min(3, T // 2 + 1)):
            pub = rnd.choice([t for t in range(T) if t % 2 == 0])
            subs = [t for t in range(T) if t % 2 == 1]
            if not subs:
                break
            sub = rnd.choice(subs)
            th[pub].insert(rnd.randrange(1, len(th[pub]) + 1), "P:vf_p%d:%d:%d" % (j, j % 3, j))
            th[sub].insert(rnd.randrange(1, len(th[sub]) + 1), "W:vf_p%d:%d" % (j, j))
    elif kind == "hammer-functions":
        # every thread adds overloads of the SAME names (copy-on-write overload vectors) and calls shared functions
        for t in range(T):
            for j in range(6):
                th[t].append("F:vf_h%d:%d" % (j % 2, t))
                if j % 2:
                    th[t].append("X:shared_script:%d" % (t + j))
                if j == 3:
                    th[t].append("Z")
    elif kind == "hammer-globals":
        for t in range(T):
            for j in range(10):
                th[t].append("%s:vg_t%d_%d:%d" % ("GK"[j % 2], t, j, j))
                if j % 3 == 0:
                    th[t].append("Q:shared_const")
                if j % 4 == 1:
                    th[t].append("S:vg_s%d:%d" % (t, j))
            th[t].append("T:VNh%d:%d" % (t, t % 4))
    elif kind == "hammer-conversions":
        for t in range(T):
            mine = [p for i, p in enumerate(PAIRS) if i % T == t]
            for p in mine:
                th[t].append("V:%d:%d" % p)
                th[t].append("H:%d:%d" % p)
                th[t].append("X:shared_script:%d" % t)
            if not mine:
                th[t] += ["X:shared_script:%d" % t, "Z", "X:shared_pick:1,%d" % t]
    elif kind == "hammer-use":
        for t in range(T):
            for j in range(4):
                th[t].append("U:%d" % ((j + t) % 4))
                th[t].append("Z")
            th[t].append("X:shared_script:%d" % t)
    elif kind == "hammer-eval":
        # same script text, same local names, same shared functions and constants on every thread
        for t in range(T):
            th[t].append("D:%d" % (t + 1))
            for j in range(6):
                th[t].append("E:%d:%d" % (j, 20))
                th[t].append("O:vc_t%d_%d:%d" % (t, j, j + 1))
    else:
        raise ValueError(kind)
    return th, contested


def mix_line(T, seed, ymode, th):
    return "%d %d %d | %s" % (T, seed, ymode, " | ".join(" ".join(x) for x in th))


def model_line(th):
    toks = []
    for ops in th:
        for o in ops:
            if o[0] == "P":
                f = o.split(":")
                toks.append("F:%s:%s" % (f[1], f[2]))
            elif o[0] in "FCGKSTVU":
                toks.append(o)
    return "seq " + " ".join(toks)


def parse_threads(out):
    body, _, inv = out.partition(" | ")
    res = []
    for part in body.split(" ; "):
        _, _, r = part.partition(":")
        res.append([x for x in r.strip().split(" ") if x])
    return res, inv


def tsan_summary(err):
    reports = err.count("WARNING: ThreadSanitizer")
    first = ""
    m = re.search(r"WARNING: ThreadSanitizer:.*?(?=\n==================|\Z)", err, re.S)
    if m:
        lines = [l for l in m.group(0).split("\n") if re.match(r"\s*(WARNING|  (Write|Read|Previous|Atomic|Location|Mutex)|    #[0-4] )", l)]
        first = "\n".join(lines[:16])
    sm = [re.sub(r"\(/\S*?h_threads\+0x[0-9a-f]+\) ", "", x)[:220] for x in re.findall(r"SUMMARY: ThreadSanitizer: (.*)", err)]
    return reports, "\n".join(l[:260] for l in first.split("\n")), sorted(set(sm))[:6]


def run_one(tbin, line, timeout=240):
    t0 = time.time()
    rc, out, err = vlib.run([tbin, "mt"], input=(line + "\n").encode(), timeout=timeout, env=TSAN_ENV)
    return rc, out.decode(errors="replace").strip(), err.decode(errors="replace"), time.time() - t0


def judge(c, cfg, rc, out, err, solo, spec_inv):
    """compare one stress outcome with what the theorems allow; returns True when it is acceptable"""
    case = {"mix": cfg["line"], "kind": cfg["kind"], "threads": cfg["T"], "schedule_seed": cfg["seed"], "yield_mode": cfg["ymode"],
            "format": "T seed yieldmode | tokens of thread 0 | tokens of thread 1 ...  (vocabulary: coq/theories/ConcSpecRun.v, harness/h_threads.cpp)"}
    reports, first, summ = tsan_summary(err)
    ok = True
    if reports:
        c.fail("ThreadSanitizer reports a data race while %d threads use one engine" % cfg["T"],
               dict(case, tsan_reports=reports, tsan_summaries=summ, first_report=first))
        ok = False
    if rc not in (0, 66) or not out:
        c.fail("the stress process died or timed out (exit code %s)" % rc, dict(case, stderr_tail=err[-1200:]))
        return False
    res, inv = parse_threads(out)
    sres, _ = parse_threads(solo)
    th = cfg["threads"]
    bad = []
    for t, ops in enumerate(th):
        if t >= len(res) or len(res[t]) != len(ops):
            bad.append("thread %d produced %d results for %d operations" % (t, len(res[t]) if t < len(res) else -1, len(ops)))
            continue
        for j, o in enumerate(ops):
            if o in cfg["contested"]:
                continue
            if res[t][j] != sres[t][j]:
                bad.append("thread %d op %d %s: %s, solo run: %s" % (t, j, o, res[t][j], sres[t][j]))
    for tok, who in cfg["contested"].items():
        rs = [res[t][th[t].index(tok)] for t in who if t < len(res) and len(res[t]) == len(th[t])]
        if sorted(rs) != ["conflict"] * (len(who) - 1) + ["ok"]:
            bad.append("contested registration %s by threads %s: results %s (exactly one must succeed)" % (tok, who, rs))
    if bad:
        c.fail("a thread's results differ from its solo run (or a contested registration did not succeed exactly once)", dict(case, differences=bad[:8]))
        ok = False
    if canon_inventory(inv) != spec_inv:
        c.fail("final inventory differs from the one every interleaving yields in the model (lost / duplicated registration, or a used file not evaluated exactly once)",
               dict(case, impl_inventory=canon_inventory(inv), spec_inventory=spec_inv))
        ok = False
    return ok


def stress(c, cfgs, tbin, obin, mbin, workers):
    if not cfgs:
        return
    _, solos, err = vlib.run_lines(obin, [x["line"] for x in cfgs], timeout=900, args=["solo"])
    _, specs, err2 = vlib.run_lines(mbin, [model_line(x["threads"]) for x in cfgs], timeout=900)
    if len(solos) != len(cfgs) or len(specs) != len(cfgs):
        raise vlib.BuildError("stress: solo/model produced %d/%d lines for %d mixes\n%s\n%s" % (len(solos), len(specs), len(cfgs), err[-1500:], err2[-1500:]))
    with concurrent.futures.ThreadPoolExecutor(max_workers=workers) as ex:
        futs = [ex.submit(run_one, tbin, x["line"]) for x in cfgs]
        for x, fu, solo, spec in zip(cfgs, futs, solos, specs):
            rc, out, err, dt = fu.result()
            spec_inv = canon_inventory(spec.partition(" | ")[2])
            good = judge(c, x, rc, out, err, solo, spec_inv)
            c.cov["evaluations"] += 1
            c.cov["programs"] += 1
            key = "stress:%s:T=%d" % (x["kind"], x["T"])
            c.dist[key] = c.dist.get(key, 0) + 1
            c.extra["stress"]["runs"] += 1
            c.extra["stress"]["wall_s"] = round(c.extra["stress"]["wall_s"] + dt, 1)
            if not good:
                c.extra["stress"]["failing_runs"] += 1
            if len(c.extra["stress"]["samples"]) < 3:
                c.extra["stress"]["samples"].append({"mix": x["line"][:400], "outcome": out[:400], "tsan_reports": tsan_summary(err)[0]})


KINDS = ["general", "hammer-functions", "hammer-globals", "hammer-conversions", "hammer-use", "hammer-eval"]


def make_cfgs(tier, seed, focus=False):
    rnd = random.Random(seed * 104729 + 13)
    Ts = [2, 4, 8] if tier == "quick" else [2, 4, 8, 16]
    cfgs = []
    for T in Ts:
        plan = [("general", s) for s in range(2 if tier == "quick" else 30)] + [(k, 0) for k in KINDS[1:]]
        if tier == "thorough":
            plan += [(k, s) for k in KINDS[1:] for s in range(1, 15)]
        if focus:
            plan = [(k, s) for k in KINDS[1:5] for s in range(10, 16 if tier == "quick" else 40)]
        for kind, s in plan:
            th, contested = gen_mix(random.Random(rnd.randrange(1 << 30)), T, kind)
            sseed = rnd.randrange(1, 1 << 20)
            ymode = rnd.choice([1, 1, 2, 3]) if kind == "general" else rnd.choice([0, 1, 1, 2])
            cfgs.append({"T": T, "kind": kind, "seed": sseed, "ymode": ymode, "threads": th, "contested": contested, "line": mix_line(T, sseed, ymode, th)})
    return cfgs


def cfg_from_line(line):
    hd, *parts = line.split("|")
    T, seed, ymode = [int(x) for x in hd.split()]
    th = [[t for t in p.split(" ") if t] for p in parts]
    cnt = {}
    for t, ops in enumerate(th):
        for o in set(ops):
            if o[0] in "FCGKTV":
                cnt.setdefault(o, []).append(t)
    contested = {o: w for o, w in cnt.items() if len(w) > 1}
    return {"T": T, "kind": "corpus", "seed": seed, "ymode": ymode, "threads": th, "contested": contested, "line": line.strip()}


DIAG = """From Coq Require Import List String Bool.
From ChaiV Require Import ConcDefs.
From ChaiV.Gen Require Import G_Locks.
Import ListNotations.
Local Open Scope string_scope.
Definition bodies := entry_events methods.
Definition pol := table_policy mutexes fields bodies.
Definition body_named (c n : string) := flat_map (method_events methods) (filter (fun m => String.eqb (md_class m) c && String.eqb (md_name m) n) methods).
(* entry points that break the discipline or leave a lock held *)
Eval vm_compute in map (fun m => (md_class m, md_name m)) (filter (fun m => is_entry m && negb (method_ok pol (method_events methods m))) methods).
(* shared fields without a guarding mutex: field, candidate mutex, entry points that access the field without it *)
Eval vm_compute in flat_map (fun fd => match choose_policy mutexes bodies fd with
  | PNone => map (fun mx => (fd_name fd, mx_name mx, map md_name (filter (fun m => is_entry m && negb (guards_all [method_events methods m] (fd_id fd) (mx_id mx))) methods)))
                 (filter (fun mx => String.eqb (mx_class mx) (fd_class fd)) mutexes)
  | _ => [] end) fields.
Eval vm_compute in guard_assignment mutexes fields methods.
Eval vm_compute in exempt_fields fields.
(* use(): is the use mutex kept from the check of m_used_files to the insertion? *)
Eval vm_compute in use_ok (MkUseIds use_mutex_id used_files_id "eval_file") (body_named "ChaiScript_Basic" "use").
"""


def diagnose():
    """which member function / field breaks the discipline on the regenerated table (evaluated by Coq, not re-implemented here)"""
    d = os.path.join(vlib.BUILD, "diag_C13")
    os.makedirs(d, exist_ok=True)
    with open(os.path.join(d, "Diag.v"), "w") as f:
        f.write(DIAG)
    with vlib.Lock("coq"):
        rc, out, err = vlib.run(["coqc", "-q", "-w", "-all", "-Q", os.path.join(vlib.COQ, "theories"), "ChaiV", "-Q", os.path.join(vlib.COQ, "gen"), "ChaiV.Gen", "Diag.v"],
                                cwd=d, timeout=600)
    txt = out.decode(errors="replace")
    if rc != 0:
        return "diagnosis unavailable: " + err.decode(errors="replace")[-600:]
    txt = re.sub(r"%string", "", txt)
    txt = re.sub(r"\s+", " ", txt)
    parts = [p.strip() for p in re.split(r"(?:^| )= ", txt) if p.strip()]
    labels = ["entry points breaking the discipline", "unguarded fields (field, candidate mutex, offending entry points)", "guard assignment", "exempt fields",
              "use() keeps m_use_mutex across check/eval_file/insert"]
    return "; ".join("%s: %s" % (l, re.sub(r" : [^=]*$", "", p)[:900]) for l, p in zip(labels, parts))


def warm():
    vlib.cxx_build("h_threads", flavor="opt")
    vlib.cxx_build("h_threads", flavor="tsan")
    vlib.model_build("conc", ["theories/ConcSpecRun.vo"])


def check(tier, seed):
    c = vlib.Check("C13", tier, seed)
    c.extra["stress"] = {"label": "STRESS EVIDENCE, NOT PROOF: randomized schedules under ThreadSanitizer; the only coverage of races below the critical-section "
                                  "abstraction (Boxed_Value::Data flags shared through AST constants, m_loc atomics, thread_local maps, shared_ptr control blocks, libstdc++)",
                         "runs": 0, "failing_runs": 0, "wall_s": 0.0, "samples": []}
    c.cov["rule"] = ("proof: theorems of Properties_C13 over the lock/field-access table regenerated from the three headers. "
                     "tie: sequential histories = random sequences (length 8..28) of the 14 engine-table operations over 3 function names x 4 signatures, 3 global names, "
                     "2 type names, 6 conversion pairs, 3 files, get_state/set_state; non-trivial = the specification answers at least one `conflict` or the history "
                     "restores a state; distinct = distinct history lines. "
                     "stress (not proof): mixes = T in {2,4,8}(,16) threads x {general, hammer-functions/globals/conversions/use/eval}; a general mix has per-thread unique "
                     "registrations, evaluations with locals of the same names, calls of shared script functions, use() of the same files, get_state, contested registrations, "
                     "publish/wait pairs; each run is one process under TSan with a schedule seed driving injected yields/sleeps")
    c.cov["explanation"] = ("Partially decidable by theorem: the Coq theorems cover the member fields of Dispatch_Engine / Type_Conversions / ChaiScript_Basic at "
                            "critical-section granularity (lock discipline => ordered conflicting accesses; registrations retained / visible under every interleaving; "
                            "use() evaluates once). Races below that abstraction and `each thread's results equal its solo run` are only TESTED by the TSan stress runs.")
    c.assumptions = [
        "translator tools/translate/t_Locks.py (text recogniser): the textual order of a member function body stands for all its control-flow paths because held locks are a "
        "function of the position (RAII scopes; explicit unlock()/lock() balanced per block is checked); const member functions only read non-mutable fields; "
        "`_int` members are internal helpers analysed at their call sites (checked: no mention outside the class)",
        "constructors/destructors run while the object is not shared; configuration analysed: threads enabled, CHAISCRIPT_NO_DYNLOAD undefined, POSIX",
        "one exclusive section = one atomic state transformer (justified by C13_section_exclusive + C13_registration_sections, not by a reduction theorem)",
        "the abstract engine state (names, signature ids, values) is tied to the real tables only by the sequential histories",
        "extraction: ExtrOcamlBasic + ExtrOcamlString, no Extract Constant; OCaml driver does line I/O only",
        "ThreadSanitizer (gcc 12 libtsan) and the schedules it happens to see: absence of a report is not a proof of absence of races",
    ]
    proved = c.prove("Properties_C13", translators=["Locks"])
    obin = vlib.cxx_build("h_threads", flavor="opt")
    tbin = vlib.cxx_build("h_threads", flavor="tsan")
    mbin = vlib.model_build("conc", ["theories/ConcSpecRun.vo"])
    corpus = [l.strip() for l in open(os.path.join(vlib.ROOT, "corpus", "C13.txt")) if l.strip() and not l.startswith("#")]
    # --- (a) sequential histories
    rnd = random.Random(seed * 7919 + 13)
    hists = [l for l in corpus if l.startswith("seq ")]
    hists += [gen_history(rnd, rnd.randrange(8, 29)) for _ in range(400 if tier == "quick" else 5000)]
    impl, model = run_seq(c, hists, obin, mbin)
    for k in (0, len(hists) // 2):
        c.sample({"history": hists[k], "impl": canon_seq(impl[k]), "spec_model": canon_seq(model[k])})
    # --- (b) stress
    workers = max(2, min(8, vlib.NCPU // 2))
    cfgs = [cfg_from_line(l[3:]) for l in corpus if l.startswith("mt ")] + make_cfgs(tier, seed)
    stress(c, cfgs, tbin, obin, mbin, workers)
    if not proved:
        try:
            c.broken_ties.append(("proof-diagnosis", "discipline of the regenerated lock table", diagnose()))
        except Exception as ex:  # diagnosis is best effort
            c.broken_ties.append(("proof-diagnosis", "unavailable", str(ex)[:300]))
    if not proved and not c.failures:
        # the theorems no longer hold on the regenerated table: search harder for a concrete schedule
        vlib.log("C13: proof broken, focused stress search for a failing schedule")
        t0 = time.time()
        for rnd_i in range(3 if tier == "quick" else 10):
            stress(c, make_cfgs(tier, seed + 1000 + rnd_i, focus=True), tbin, obin, mbin, workers)
            if c.failures or time.time() - t0 > (150 if tier == "quick" else 900):
                break
    return c.finish()


def replay(path):
    r = json.load(open(os.path.join(vlib.ROOT, path) if not os.path.isabs(path) else path))
    if r.get("kind") != "failing-input":
        print("tie-broken replay: the following no longer check:", json.dumps(r.get("no_longer_checks"), indent=1)[:4000])
        return 1
    case = r["failure"]["case"]
    obin = vlib.cxx_build("h_threads", flavor="opt")
    mbin = vlib.model_build("conc", ["theories/ConcSpecRun.vo"])
    if "history" in case:
        _, i, _ = vlib.run_lines(obin, [case["history"]], args=["seq"])
        _, m, _ = vlib.run_lines(mbin, [case["history"]])
        print("history:", case["history"], "\nimpl:", canon_seq(i[0]), "\nspec:", canon_seq(m[0]))
        bad = canon_seq(i[0]) != canon_seq(m[0])
        print("REPRODUCED" if bad else "not reproduced")
        return 1 if bad else 0
    tbin = vlib.cxx_build("h_threads", flavor="tsan")
    cfg = cfg_from_line(case["mix"])
    cfg["kind"] = case.get("kind", "replay")
    tries = 12
    for k in range(tries):
        c = vlib.Check("C13", "replay", 0)
        c.extra["stress"] = {"runs": 0, "failing_runs": 0, "wall_s": 0.0, "samples": []}
        stress(c, [cfg], tbin, obin, mbin, 1)
        if c.failures:
            print("mix:", cfg["line"])
            print("attempt %d/%d:" % (k + 1, tries), c.failures[0]["what"])
            print(json.dumps({k2: v for k2, v in c.failures[0]["case"].items() if k2 not in ("mix", "format")}, indent=1)[:3000])
            print("REPRODUCED")
            return 1
    print("not reproduced in %d schedules (the failure depends on the interleaving)" % tries)
    return 0
